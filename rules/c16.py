"""C16 — sparse and dense rows interchangeable: representation-agnostic dispatch.

Decided (necessary) clauses; the CO_Tree index arithmetic is not decided.

R16.1 DISPATCH-ARMS  every run-time dispatch on the dynamic type of a
      Linear_Expression_Interface operand has a Dense arm and a Sparse arm that
      are identical modulo Dense_Row<->Sparse_Row, and an unreachable tail.
R16.2 REPRESENTATION-SWITCH  every switch over `Representation` has both cases
      with bodies identical modulo Dense_Row<->Sparse_Row.
R16.3 SPECIALISATION-PARITY  the members explicitly specialised for
      Linear_Expression_Impl<Dense_Row> and <Sparse_Row> are the same set.
"""
from pplv import facts as F
from pplv import flow
from pplv.shape import canon, first_diff

D2S = [(r"Dense_Row", "ROW"), (r"Sparse_Row", "ROW"), (r"Dense_Ptr", "PTR"), (r"Sparse_Ptr", "PTR"),
       (r"\bdp\b", "p"), (r"\bsp\b", "p")]


def _row_of_cast(n):
    tc = n.get("tc", "")
    if "Linear_Expression_Impl<" not in tc:
        return None
    if "Dense_Row" in tc:
        return "Dense"
    if "Sparse_Row" in tc:
        return "Sparse"
    return None


def _only_unreachable(f, n):
    """The tail arm aborts before doing anything: its first statement is the
    call of ppl_unreachable (whatever follows it, e.g. `return false;`, is dead)."""
    n = f.deref(n)
    if n is None:
        return False
    first = n
    while first is not None and first["k"] in ("block", "default"):
        kids = [f.deref(c) for c in first.get("c", ()) if c is not None]
        first = kids[0] if kids else None
    if first is None:
        return False
    return first["k"] == "call" and f.call_name(first) in ("ppl_unreachable", "ppl_unreachable_msg")


def dispatch_sites(f):
    """Yield (if-node, row, operand text, then, else) for `if (P p = dynamic_cast<Impl<Row>*>(&y))`."""
    for n in f.walk():
        if n["k"] != "if":
            continue
        init, condvar, cond, then, els = (n["c"] + [None] * 5)[:5]
        if condvar is None:
            continue
        casts = [x for x in f.walk(condvar) if x["k"] == "cast" and x.get("ck") == "dynamic_cast"]
        if len(casts) != 1:
            continue
        row = _row_of_cast(casts[0])
        if row is None:
            continue
        yield n, row, f.text(casts[0]["c"][0]), then, els


def r16_1(ctx, fx):
    rid = "R16.1"
    ctx.rule(rid, "dynamic-type dispatch on a Linear_Expression_Interface operand: Dense arm and Sparse arm identical modulo Dense_Row<->Sparse_Row, tail unreachable")
    ninst = 0
    ncasts = 0
    for f in fx.functions:
        if f.clsn != "Linear_Expression_Impl" or f.flag("pattern"):
            continue
        for x in f.walk():
            if x["k"] == "cast" and x.get("ck") == "dynamic_cast" and _row_of_cast(x):
                ncasts += 1
        sites = list(dispatch_sites(f))
        if not sites:
            continue
        nested = set()
        for n, row, operand, then, els in sites:
            if n["i"] in nested:
                continue
            ninst += 1
            inst = "%s dispatch on %s" % (f.sig(), operand)
            where = f.where(n)
            els = f.deref(els)
            if els is None or els["k"] != "if":
                ctx.violation(rid, inst, where, "dispatch has a %s arm but no sibling arm for the other representation" % row)
                continue
            sib = [s for s in sites if s[0] is els]
            if not sib:
                ctx.violation(rid, inst, where, "the else-branch of the %s arm is not a dispatch on the other representation" % row)
                continue
            n2, row2, operand2, then2, els2 = sib[0]
            nested.add(n2["i"])
            if row2 == row or operand2 != operand:
                ctx.violation(rid, inst, where, "arms test %s(%s) and %s(%s): expected Dense and Sparse on the same operand" % (row, operand, row2, operand2))
                continue
            a = canon(f, then, D2S)
            b = canon(f, then2, D2S)
            if a != b:
                ctx.violation(rid, inst, where, "Dense and Sparse arms differ: " + str(first_diff(a, b)))
                continue
            if not _only_unreachable(f, f.deref(els2)):
                ctx.violation(rid, inst, where, "tail of the dispatch (neither Dense nor Sparse) is missing or does work instead of being unreachable")
                continue
            # each arm must actually use the cast pointer
            used = [any(x["k"] == "ref" and x.get("n") in ("p", "dp", "sp") for x in f.walk(t)) for t in (then, then2)]
            if not all(used):
                ctx.violation(rid, inst, where, "an arm does not use the down-cast operand")
                continue
            ctx.ok(rid, inst, where)
    ctx.count(rid, "dynamic_cast_expressions", ncasts)
    ctx.floor(rid, ninst, 40, "dispatch sites in Linear_Expression_Impl<Dense_Row|Sparse_Row>")


def r16_2(ctx, fx):
    rid = "R16.2"
    ctx.rule(rid, "every switch over Representation has DENSE and SPARSE cases with bodies identical modulo Dense_Row<->Sparse_Row; other tests of a Representation value are reported")
    nsw = 0
    for f in fx.functions:
        for n in f.walk():
            if n["k"] == "switch":
                cond = f.deref(n["c"][0])
                labels = {}
                body = f.deref(n["c"][1])
                seq = body.get("c", []) if body and body["k"] == "block" else []
                cur = None
                has_default = None
                for st in seq:
                    st = f.deref(st)
                    if st is None:
                        continue
                    if st["k"] == "case":
                        lab = f.deref(st["c"][0])
                        cur = lab.get("qn", lab.get("n")) if lab else None
                        labels[cur] = [st["c"][1]] if len(st["c"]) > 1 else []
                    elif st["k"] == "default":
                        cur = "default"
                        has_default = st
                        labels[cur] = list(st.get("c", []))
                    elif cur is not None:
                        labels[cur].append(st)
                keys = set(k for k in labels if k and k != "default")
                dense = [k for k in keys if k.endswith("DENSE")]
                sparse = [k for k in keys if k.endswith("SPARSE")]
                if not dense and not sparse:
                    continue
                nsw += 1
                inst = "%s switch(%s)" % (f.sig(), f.text(cond))
                where = f.where(n)
                if not dense or not sparse:
                    ctx.violation(rid, inst, where, "switch over Representation lacks the %s case" % ("DENSE" if not dense else "SPARSE"))
                    continue
                a = tuple(canon(f, s, D2S) for s in labels[dense[0]])
                b = tuple(canon(f, s, D2S) for s in labels[sparse[0]])
                if a != b:
                    d = None
                    for x, y in zip(a, b):
                        d = first_diff(x, y)
                        if d:
                            break
                    ctx.violation(rid, inst, where, "DENSE and SPARSE cases differ: %s" % (d or "different number of statements"))
                    continue
                if has_default is not None and not _only_unreachable(f, has_default):
                    ctx.violation(rid, inst, where, "default case of a Representation switch does work")
                    continue
                ctx.ok(rid, inst, where)
            elif n["k"] == "binop" and n.get("op") in ("==", "!="):
                for c in n["c"]:
                    c = f.deref(c)
                    if c and c["k"] == "ref" and c.get("dk") == "enum" and c.get("qn", "").endswith(("::DENSE", "::SPARSE")):
                        # an if-style test: allowed only in the textual I/O helpers of Representation
                        inst = "%s tests %s" % (f.sig(), f.text(n))
                        if f.name in ("ascii_dump", "ascii_load", "operator<<") and "Representation" in f.sig():
                            ctx.excepted(rid, inst, f.where(n), "textual dump/load of the Representation enumerator itself")
                        else:
                            ctx.violation(rid, inst, f.where(n), "Representation tested outside a two-case switch: the two representations may be treated differently")
    ctx.floor(rid, nsw, 8, "switches over Representation")


def r16_3(ctx, fx):
    rid = "R16.3"
    ctx.rule(rid, "members explicitly specialised for Linear_Expression_Impl<Dense_Row> and <Sparse_Row> are the same set (same name and parameter list)")
    spec = {"Dense": {}, "Sparse": {}}
    for f in fx.functions:
        if f.clsn == "Linear_Expression_Impl" and f.flag("xspec"):
            row = "Dense" if "<Parma_Polyhedra_Library::Dense_Row>" in (f.cls or "") else "Sparse" if "<Parma_Polyhedra_Library::Sparse_Row>" in (f.cls or "") else None
            if row is None:
                continue
            key = "%s(%s)%s" % (f.name, ", ".join(p["t"] for p in f.params), " const" if f.flag("const") else "")
            spec[row][key] = f
    keys = set(spec["Dense"]) | set(spec["Sparse"])
    for k in sorted(keys):
        inst = "Linear_Expression_Impl<*>::" + k
        fd, fs = spec["Dense"].get(k), spec["Sparse"].get(k)
        if fd and fs:
            ctx.ok(rid, inst, fd.where())
        else:
            have = fd or fs
            ctx.violation(rid, inst, have.where(), "explicitly specialised only for %s rows" % ("Dense" if fd else "Sparse"))
    ctx.floor(rid, len(keys), 14, "explicitly specialised members")


ADDITIVE_CALLS = ("add_mul_assign", "sub_mul_assign", "add_assign_r", "sub_assign_r")


def _deref_of(f, n):
    """Name of the local iterator `it` if n is `*it` (possibly parenthesised / cast), else None."""
    n = f.deref(n)
    while n is not None and n["k"] in ("cast", "paren") and n.get("c"):
        n = f.deref(n["c"][0])
    if n is not None and n["k"] in ("unop", "ocall") and n.get("op") == "*" and n.get("c"):
        x = f.deref(n["c"][0])
        while x is not None and x["k"] in ("cast", "paren") and x.get("c"):
            x = f.deref(x["c"][0])
        if x is not None and x["k"] == "ref" and x.get("dk") in ("local", "param"):
            t = x.get("t", "")
            if "iterator" in t and "const_iterator" not in t and ("Sparse_Row" in t or "CO_Tree" in t):
                return x["n"]
    return None


def r16_4(ctx):
    from pplv import flow
    rid = "R16.4"
    ctx.rule(rid, "no stored zeros: a sparse row stores only non-zero coefficients (is_zero(), all_zeroes(), iteration, equality with a dense row rely on it). In Sparse_Row.cc every additive in-place update of an element reached through a Sparse_Row / CO_Tree iterator (`*it += e`, `*it -= e`, add_mul_assign(*it, ...), sub_mul_assign(*it, ...)), which may cancel to zero, is followed on every path by a test of `*it` against zero before the iterator is advanced, reassigned or the function returns")
    fx = ctx.extract([F.lib_unit("Sparse_Row.cc")])
    n = 0
    seen = set()
    for f in fx.functions:
        if f.flag("pattern") or not f.cfg or (f.relfile, f.line) in seen:
            continue
        seen.add((f.relfile, f.line))
        k_in_f = [0]
        for e in f.walk():
            it = None
            if e["k"] in ("assign", "ocall") and e.get("op") in ("+=", "-="):
                it = _deref_of(f, e["c"][0])
            elif e["k"] == "call" and f.call_name(e) in ADDITIVE_CALLS and f.call_args(e):
                it = _deref_of(f, f.call_args(e)[0])
            if it is None or f.cfg_pos(e) is None:
                continue
            n += 1
            k_in_f[0] += 1
            inst = "%s(%s): additive update of *%s [%d]" % (f.name, ", ".join(p["t"].split("::")[-1] for p in f.params[:2]), it, k_in_f[0])

            def zero_test(tc, taken, it=it):
                t = f.text(tc).replace(" ", "").replace("(", "").replace(")", "")
                return t in ("*%s==0" % it, "*%s!=0" % it, "0==*%s" % it, "0!=*%s" % it)

            def moved(y, it=it):
                if y["k"] in ("assign", "ocall") and y.get("op") == "=" and f.deref(y["c"][0]) is not None \
                        and f.deref(y["c"][0])["k"] == "ref" and f.deref(y["c"][0]).get("n") == it:
                    return True
                if y["k"] in ("unop", "ocall") and y.get("op") in ("++", "--") and y.get("c") and f.deref(y["c"][0]) is not None \
                        and f.deref(y["c"][0])["k"] == "ref" and f.deref(y["c"][0]).get("n") == it:
                    return True
                return False
            ex = flow.Explorer(f)
            p1 = ex.find_path(f.cfg_pos(e), lambda y: False, moved, edge_blocked=zero_test)
            p2 = ex.find_path(f.cfg_pos(e), lambda y: False, "EXIT", edge_blocked=zero_test) if p1 is None else None
            # a path that first moves the iterator is found by p1; p2 catches a return without test
            if p1 is not None or p2 is not None:
                ctx.violation(rid, inst, f.where(e), "after `%s` the element may be zero, but a path %s without testing `*%s == 0`: the sparse row keeps an explicit zero (%s)" % (
                    f.text(e)[:40], "moves the iterator on" if p1 is not None else "returns", it, flow.render_path(f, p1 or p2)))
            else:
                ctx.ok(rid, inst, f.where(e))
    ctx.floor(rid, n, 12, "additive in-place updates through sparse iterators")


def units():
    return [F.driver_unit("linexpr_impl.cc", file_re=r"Linear_Expression_Impl"),
            F.lib_unit("Linear_Expression.cc"),
            F.lib_unit("Linear_Expression_Impl.cc"),
            F.driver_unit("all_headers.cc", file_re=r"(Linear_Expression|globals)_inlines\.hh|Linear_Expression_templates\.hh|Expression_.*\.hh")]


def _conjuncts(f, n):
    """Texts (spaces removed) of the conjuncts of an `&&` tree."""
    n = f.deref(n)
    while n is not None and n["k"] in ("cast", "paren") and n.get("c"):
        n = f.deref(n["c"][0])
    if n is not None and n["k"] == "binop" and n.get("op") == "&&":
        return _conjuncts(f, n["c"][0]) | _conjuncts(f, n["c"][1])
    return {f.text(n).replace(" ", "").strip("()")} if n is not None else set()


def r16_6(ctx):
    """Asserted no-alias preconditions of CO_Tree (a reference argument that may point into the tree's own
    storage, which the insertion relocates) are discharged at every call site."""
    import re
    rid = "R16.6"
    ctx.rule(rid, "no alias into relocated storage: a CO_Tree member that asserts on entry that a reference parameter does not point into the tree's own data array (`!(data <= &p && &p < data + ...)`: the insertion reallocates or rebalances before it reads p) is called, with a reference parameter of the caller as argument, only on the false edge of a test that is true whenever that address range test is (the guard's conjuncts are among the asserted ones, none added), or from a caller asserting the same; arguments that are not caller-supplied references (a call result, a local copy) need nothing. Otherwise `row.insert(j, row.get(i))` / `e.set_coefficient(Y, e.coefficient(X))` stores a coefficient that was moved away under the reference, in the sparse representation only")
    fx = ctx.extract([F.lib_unit("CO_Tree.cc", view="debug"),
                      F.driver_unit("all_headers.cc", view="debug", file_re=r"CO_Tree_inlines\.hh")])
    fs = [f for f in fx.functions if f.clsn == "CO_Tree" and f.cfg and not f.flag("pattern")]
    # 1. the asserted alias preconditions: (function name, arity) -> (param index, param name, conjuncts)
    req = {}
    for f in fs:
        refparams = [(i, p["n"]) for i, p in enumerate(f.params) if "&" in p.get("t", "") or "const_reference" in p.get("t", "")]
        for a in f.walk():
            if a["k"] == "cond" and len(a.get("c", ())) == 3 and any(f.call_name(c) == "ppl_assertion_failed" for c in f.calls(f.deref(a["c"][2]))):
                cn = f.deref(a["c"][0])
                neg = False
                while cn is not None and (cn["k"] in ("cast", "paren") or (cn["k"] == "unop" and cn.get("op") == "!")):
                    if cn["k"] == "unop":
                        neg = not neg
                    cn = f.deref(cn["c"][0])
                for i, pn in refparams:
                    if cn is not None and neg and re.search(r"&\s*%s\b" % re.escape(pn), f.text(cn)):
                        req[(f.name, len(f.params))] = (i, pn, _conjuncts(f, cn), f, a)
    ctx.require(rid, len(req) >= 1, "no asserted address-range precondition found in CO_Tree (assertion-enabled view)")
    n = 0
    for f in fs:
        for c in f.calls():
            key = (f.call_name(c), len(f.call_args(c)))
            if key not in req or c["k"] not in ("mcall", "call"):
                continue
            if c["k"] == "mcall" and f.call_obj(c) is not None and f.root(f.call_obj(c)) != ("this",):
                continue
            pi, pn, want, g, _ = req[key]
            arg = f.deref(f.call_args(c)[pi])
            while arg is not None and arg["k"] in ("cast", "paren") and arg.get("c"):
                arg = f.deref(arg["c"][0])
            n += 1
            inst = "CO_Tree::%s calls %s with `%s`" % (f.name, g.name, f.text(arg))
            if arg is not None and arg["k"] in ("call", "mcall", "construct", "lit", "int"):
                ctx.ok(rid, inst + " (not a caller-supplied reference)", f.where(c))
                continue
            ctx.require(rid, arg is not None and arg["k"] == "ref", "%s: unknown form of the argument `%s`" % (inst, f.text(arg)))
            if arg.get("dk") == "local":
                v = f.var_decl(arg["n"]) if hasattr(f, "var_decl") else None
                ctx.require(rid, v is not None and "&" not in v.get("t", "&"), "%s: the local `%s` is a reference: unknown form" % (inst, arg["n"]))
                ctx.ok(rid, inst + " (a local copy)", f.where(c))
                continue
            q = arg["n"]
            mine = req.get((f.name, len(f.params)))
            if mine is not None and mine[1] == q and {t.replace(q, pn) for t in mine[2]} == want:
                ctx.ok(rid, inst + " (the caller asserts the same precondition)", f.where(c))
                continue
            # guards: once-defined bool locals whose definition is a conjunction of asserted conjuncts
            good, weak = set(), {}
            for v in f.walk():
                if v["k"] == "var" and v.get("c") and "bool" in v.get("t", ""):
                    cj = {t.replace(q, pn) for t in _conjuncts(f, v["c"][0])}
                    if not any(("&" + pn) in t for t in cj):
                        continue
                    writes = [a for a in f.walk() if a["k"] == "assign" and f.deref(a["c"][0]) is not None and f.deref(a["c"][0]).get("n") == v["n"]]
                    if cj and cj <= want and not writes:
                        good.add(v["n"])
                    else:
                        weak[v["n"]] = sorted(cj - want)

            def edge_sat(tc, taken):
                pol = True
                x = tc
                while x is not None and (x["k"] in ("cast", "paren") or (x["k"] == "unop" and x.get("op") == "!")):
                    if x["k"] == "unop":
                        pol = not pol
                    x = f.deref(x["c"][0])
                if x is not None and x["k"] == "ref" and x.get("n") in good:
                    return taken != pol        # the edge on which the flag is false
                return False
            path = flow.must_precede(f, c, lambda x: False, edge_satisfied=edge_sat, track_env=False)
            if path is None:
                ctx.ok(rid, inst, f.where(c))
            else:
                extra = ""
                if weak:
                    extra = "; the test `%s` does not imply it (it also requires %s)" % (", ".join(sorted(weak)), ", ".join("`%s`" % t for ts in weak.values() for t in ts) or "something else")
                ctx.violation(rid, inst, f.where(c), "`%s` may point into this tree's own storage when %s relocates the coefficients before reading it: no test that is true whenever `%s` holds guards the call (path %s)%s" % (q, g.name, " && ".join(sorted(want)), flow.render_path(f, path), extra))
    ctx.floor(rid, n, 2, "call sites of members asserting a no-alias precondition")


def run(ctx):
    ctx.explanation = ("C16 structural clauses: Dense/Sparse dispatch arms, Representation switches and explicit "
                       "specialisations agree (necessary for representation independence); decides the dispatch clause, "
                       "not the behaviour of CO_Tree / row arithmetic")
    ctx.assumptions = ["the generic (Row2-templated) bodies reached by both arms are representation-agnostic through the row iterator interface",
                       "CO_Tree index arithmetic, rebalancing and iterator validity are not decided"]
    fx = ctx.extract(units())
    r16_1(ctx, fx)
    r16_2(ctx, fx)
    r16_3(ctx, fx)
    r16_4(ctx)
    r16_6(ctx)
    from rules import dirty
    fxd = ctx.extract([F.lib_unit(n) for n in ("Linear_Expression.cc", "Linear_Expression_Impl.cc", "Sparse_Row.cc", "Dense_Row.cc", "Scalar_Products.cc", "CO_Tree.cc")]
                      + [F.driver_unit("domains.cc", file_re=r"(Linear_Expression_Impl_templates|Linear_Expression_inlines|Linear_System_templates|Matrix_templates|Sparse_Row_templates)\.hh")])
    dirty.run(ctx, "R16.5", fxd, lambda f: True, 10, "judged on the linear-expression, row and scalar-product sources (both Linear_Expression_Impl instantiations)")
