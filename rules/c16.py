"""C16 — sparse and dense rows interchangeable: representation-agnostic dispatch.

Decided (necessary) clauses; the CO_Tree index arithmetic is not decided.

R16.1 DISPATCH-ARMS  every run-time dispatch on the dynamic type of a
      Linear_Expression_Interface operand has a Dense arm and a Sparse arm that
      are identical modulo Dense_Row<->Sparse_Row, and an unreachable tail.
R16.2 REPRESENTATION-SWITCH  every switch over `Representation` has both cases
      with bodies identical modulo Dense_Row<->Sparse_Row.
R16.3 SPECIALISATION-PARITY  the members explicitly specialised for
      Linear_Expression_Impl<Dense_Row> and <Sparse_Row> are the same set.
"""
import re
from pplv import facts as F
from pplv import flow
from pplv.shape import canon, first_diff

D2S = [(r"Dense_Row", "ROW"), (r"Sparse_Row", "ROW"), (r"Dense_Ptr", "PTR"), (r"Sparse_Ptr", "PTR"),
       (r"\bdp\b", "p"), (r"\bsp\b", "p")]


def _row_of_cast(n):
    tc = n.get("tc", "")
    if "Linear_Expression_Impl<" not in tc:
        return None
    if "Dense_Row" in tc:
        return "Dense"
    if "Sparse_Row" in tc:
        return "Sparse"
    return None


def _only_unreachable(f, n):
    """The tail arm aborts before doing anything: its first statement is the
    call of ppl_unreachable (whatever follows it, e.g. `return false;`, is dead)."""
    n = f.deref(n)
    if n is None:
        return False
    first = n
    while first is not None and first["k"] in ("block", "default"):
        kids = [f.deref(c) for c in first.get("c", ()) if c is not None]
        first = kids[0] if kids else None
    if first is None:
        return False
    return first["k"] == "call" and f.call_name(first) in ("ppl_unreachable", "ppl_unreachable_msg")


def dispatch_sites(f):
    """Yield (if-node, row, operand text, then, else) for `if (P p = dynamic_cast<Impl<Row>*>(&y))`."""
    for n in f.walk():
        if n["k"] != "if":
            continue
        init, condvar, cond, then, els = (n["c"] + [None] * 5)[:5]
        if condvar is None:
            continue
        casts = [x for x in f.walk(condvar) if x["k"] == "cast" and x.get("ck") == "dynamic_cast"]
        if len(casts) != 1:
            continue
        row = _row_of_cast(casts[0])
        if row is None:
            continue
        yield n, row, f.text(casts[0]["c"][0]), then, els


def r16_1(ctx, fx):
    rid = "R16.1"
    ctx.rule(rid, "dynamic-type dispatch on a Linear_Expression_Interface operand: Dense arm and Sparse arm identical modulo Dense_Row<->Sparse_Row, tail unreachable")
    ninst = 0
    ncasts = 0
    for f in fx.functions:
        if f.clsn != "Linear_Expression_Impl" or f.flag("pattern"):
            continue
        for x in f.walk():
            if x["k"] == "cast" and x.get("ck") == "dynamic_cast" and _row_of_cast(x):
                ncasts += 1
        sites = list(dispatch_sites(f))
        if not sites:
            continue
        nested = set()
        for n, row, operand, then, els in sites:
            if n["i"] in nested:
                continue
            ninst += 1
            inst = "%s dispatch on %s" % (f.sig(), operand)
            where = f.where(n)
            els = f.deref(els)
            if els is None or els["k"] != "if":
                ctx.violation(rid, inst, where, "dispatch has a %s arm but no sibling arm for the other representation" % row)
                continue
            sib = [s for s in sites if s[0] is els]
            if not sib:
                ctx.violation(rid, inst, where, "the else-branch of the %s arm is not a dispatch on the other representation" % row)
                continue
            n2, row2, operand2, then2, els2 = sib[0]
            nested.add(n2["i"])
            if row2 == row or operand2 != operand:
                ctx.violation(rid, inst, where, "arms test %s(%s) and %s(%s): expected Dense and Sparse on the same operand" % (row, operand, row2, operand2))
                continue
            a = canon(f, then, D2S)
            b = canon(f, then2, D2S)
            if a != b:
                ctx.violation(rid, inst, where, "Dense and Sparse arms differ: " + str(first_diff(a, b)))
                continue
            if not _only_unreachable(f, f.deref(els2)):
                ctx.violation(rid, inst, where, "tail of the dispatch (neither Dense nor Sparse) is missing or does work instead of being unreachable")
                continue
            # each arm must actually use the cast pointer
            used = [any(x["k"] == "ref" and x.get("n") in ("p", "dp", "sp") for x in f.walk(t)) for t in (then, then2)]
            if not all(used):
                ctx.violation(rid, inst, where, "an arm does not use the down-cast operand")
                continue
            ctx.ok(rid, inst, where)
    ctx.count(rid, "dynamic_cast_expressions", ncasts)
    ctx.floor(rid, ninst, 40, "dispatch sites in Linear_Expression_Impl<Dense_Row|Sparse_Row>")


def r16_2(ctx, fx):
    rid = "R16.2"
    ctx.rule(rid, "every switch over Representation has DENSE and SPARSE cases with bodies identical modulo Dense_Row<->Sparse_Row; other tests of a Representation value are reported")
    nsw = 0
    for f in fx.functions:
        for n in f.walk():
            if n["k"] == "switch":
                cond = f.deref(n["c"][0])
                labels = {}
                body = f.deref(n["c"][1])
                seq = body.get("c", []) if body and body["k"] == "block" else []
                cur = None
                has_default = None
                for st in seq:
                    st = f.deref(st)
                    if st is None:
                        continue
                    if st["k"] == "case":
                        lab = f.deref(st["c"][0])
                        cur = lab.get("qn", lab.get("n")) if lab else None
                        labels[cur] = [st["c"][1]] if len(st["c"]) > 1 else []
                    elif st["k"] == "default":
                        cur = "default"
                        has_default = st
                        labels[cur] = list(st.get("c", []))
                    elif cur is not None:
                        labels[cur].append(st)
                keys = set(k for k in labels if k and k != "default")
                dense = [k for k in keys if k.endswith("DENSE")]
                sparse = [k for k in keys if k.endswith("SPARSE")]
                if not dense and not sparse:
                    continue
                nsw += 1
                inst = "%s switch(%s)" % (f.sig(), f.text(cond))
                where = f.where(n)
                if not dense or not sparse:
                    ctx.violation(rid, inst, where, "switch over Representation lacks the %s case" % ("DENSE" if not dense else "SPARSE"))
                    continue
                a = tuple(canon(f, s, D2S) for s in labels[dense[0]])
                b = tuple(canon(f, s, D2S) for s in labels[sparse[0]])
                if a != b:
                    d = None
                    for x, y in zip(a, b):
                        d = first_diff(x, y)
                        if d:
                            break
                    ctx.violation(rid, inst, where, "DENSE and SPARSE cases differ: %s" % (d or "different number of statements"))
                    continue
                if has_default is not None and not _only_unreachable(f, has_default):
                    ctx.violation(rid, inst, where, "default case of a Representation switch does work")
                    continue
                ctx.ok(rid, inst, where)
            elif n["k"] == "binop" and n.get("op") in ("==", "!="):
                for c in n["c"]:
                    c = f.deref(c)
                    if c and c["k"] == "ref" and c.get("dk") == "enum" and c.get("qn", "").endswith(("::DENSE", "::SPARSE")):
                        # an if-style test: allowed only in the textual I/O helpers of Representation
                        inst = "%s tests %s" % (f.sig(), f.text(n))
                        if f.name in ("ascii_dump", "ascii_load", "operator<<") and "Representation" in f.sig():
                            ctx.excepted(rid, inst, f.where(n), "textual dump/load of the Representation enumerator itself")
                        else:
                            ctx.violation(rid, inst, f.where(n), "Representation tested outside a two-case switch: the two representations may be treated differently")
    ctx.floor(rid, nsw, 8, "switches over Representation")


def r16_3(ctx, fx):
    rid = "R16.3"
    ctx.rule(rid, "members explicitly specialised for Linear_Expression_Impl<Dense_Row> and <Sparse_Row> are the same set (same name and parameter list)")
    spec = {"Dense": {}, "Sparse": {}}
    for f in fx.functions:
        if f.clsn == "Linear_Expression_Impl" and f.flag("xspec"):
            row = "Dense" if "<Parma_Polyhedra_Library::Dense_Row>" in (f.cls or "") else "Sparse" if "<Parma_Polyhedra_Library::Sparse_Row>" in (f.cls or "") else None
            if row is None:
                continue
            key = "%s(%s)%s" % (f.name, ", ".join(p["t"] for p in f.params), " const" if f.flag("const") else "")
            spec[row][key] = f
    keys = set(spec["Dense"]) | set(spec["Sparse"])
    for k in sorted(keys):
        inst = "Linear_Expression_Impl<*>::" + k
        fd, fs = spec["Dense"].get(k), spec["Sparse"].get(k)
        if fd and fs:
            ctx.ok(rid, inst, fd.where())
        else:
            have = fd or fs
            ctx.violation(rid, inst, have.where(), "explicitly specialised only for %s rows" % ("Dense" if fd else "Sparse"))
    ctx.floor(rid, len(keys), 14, "explicitly specialised members")


ADDITIVE_CALLS = ("add_mul_assign", "sub_mul_assign", "add_assign_r", "sub_assign_r")


def _deref_of(f, n):
    """Name of the local iterator `it` if n is `*it` (possibly parenthesised / cast), else None."""
    n = f.deref(n)
    while n is not None and n["k"] in ("cast", "paren") and n.get("c"):
        n = f.deref(n["c"][0])
    if n is not None and n["k"] in ("unop", "ocall") and n.get("op") == "*" and n.get("c"):
        x = f.deref(n["c"][0])
        while x is not None and x["k"] in ("cast", "paren") and x.get("c"):
            x = f.deref(x["c"][0])
        if x is not None and x["k"] == "ref" and x.get("dk") in ("local", "param"):
            t = x.get("t", "")
            if "iterator" in t and "const_iterator" not in t and ("Sparse_Row" in t or "CO_Tree" in t):
                return x["n"]
    return None


def r16_4(ctx):
    from pplv import flow
    rid = "R16.4"
    ctx.rule(rid, "no stored zeros: a sparse row stores only non-zero coefficients (is_zero(), all_zeroes(), iteration, equality with a dense row rely on it). In Sparse_Row.cc every additive in-place update of an element reached through a Sparse_Row / CO_Tree iterator (`*it += e`, `*it -= e`, add_mul_assign(*it, ...), sub_mul_assign(*it, ...)), which may cancel to zero, is followed on every path by a test of `*it` against zero before the iterator is advanced, reassigned or the function returns")
    fx = ctx.extract([F.lib_unit("Sparse_Row.cc")])
    n = 0
    seen = set()
    for f in fx.functions:
        if f.flag("pattern") or not f.cfg or (f.relfile, f.line) in seen:
            continue
        seen.add((f.relfile, f.line))
        k_in_f = [0]
        for e in f.walk():
            it = None
            if e["k"] in ("assign", "ocall") and e.get("op") in ("+=", "-="):
                it = _deref_of(f, e["c"][0])
            elif e["k"] == "call" and f.call_name(e) in ADDITIVE_CALLS and f.call_args(e):
                it = _deref_of(f, f.call_args(e)[0])
            if it is None or f.cfg_pos(e) is None:
                continue
            n += 1
            k_in_f[0] += 1
            inst = "%s(%s): additive update of *%s [%d]" % (f.name, ", ".join(p["t"].split("::")[-1] for p in f.params[:2]), it, k_in_f[0])

            def zero_test(tc, taken, it=it):
                t = f.text(tc).replace(" ", "").replace("(", "").replace(")", "")
                return t in ("*%s==0" % it, "*%s!=0" % it, "0==*%s" % it, "0!=*%s" % it)

            def moved(y, it=it):
                if y["k"] in ("assign", "ocall") and y.get("op") == "=" and f.deref(y["c"][0]) is not None \
                        and f.deref(y["c"][0])["k"] == "ref" and f.deref(y["c"][0]).get("n") == it:
                    return True
                if y["k"] in ("unop", "ocall") and y.get("op") in ("++", "--") and y.get("c") and f.deref(y["c"][0]) is not None \
                        and f.deref(y["c"][0])["k"] == "ref" and f.deref(y["c"][0]).get("n") == it:
                    return True
                return False
            ex = flow.Explorer(f)
            p1 = ex.find_path(f.cfg_pos(e), lambda y: False, moved, edge_blocked=zero_test)
            p2 = ex.find_path(f.cfg_pos(e), lambda y: False, "EXIT", edge_blocked=zero_test) if p1 is None else None
            # a path that first moves the iterator is found by p1; p2 catches a return without test
            if p1 is not None or p2 is not None:
                ctx.violation(rid, inst, f.where(e), "after `%s` the element may be zero, but a path %s without testing `*%s == 0`: the sparse row keeps an explicit zero (%s)" % (
                    f.text(e)[:40], "moves the iterator on" if p1 is not None else "returns", it, flow.render_path(f, p1 or p2)))
            else:
                ctx.ok(rid, inst, f.where(e))
    ctx.floor(rid, n, 12, "additive in-place updates through sparse iterators")


def units():
    return [F.driver_unit("linexpr_impl.cc", file_re=r"Linear_Expression_Impl"),
            F.lib_unit("Linear_Expression.cc"),
            F.lib_unit("Linear_Expression_Impl.cc"),
            F.driver_unit("all_headers.cc", file_re=r"(Linear_Expression|globals)_inlines\.hh|Linear_Expression_templates\.hh|Expression_.*\.hh")]


def _conjuncts(f, n):
    """Texts (spaces removed) of the conjuncts of an `&&` tree."""
    n = f.deref(n)
    while n is not None and n["k"] in ("cast", "paren") and n.get("c"):
        n = f.deref(n["c"][0])
    if n is not None and n["k"] == "binop" and n.get("op") == "&&":
        return _conjuncts(f, n["c"][0]) | _conjuncts(f, n["c"][1])
    return {f.text(n).replace(" ", "").strip("()")} if n is not None else set()


def r16_6(ctx):
    """Asserted no-alias preconditions of CO_Tree (a reference argument that may point into the tree's own
    storage, which the insertion relocates) are discharged at every call site."""
    import re
    rid = "R16.6"
    ctx.rule(rid, "no alias into relocated storage: a CO_Tree member that asserts on entry that a reference parameter does not point into the tree's own data array (`!(data <= &p && &p < data + ...)`: the insertion reallocates or rebalances before it reads p) is called, with a reference parameter of the caller as argument, only on the false edge of a test that is true whenever that address range test is (the guard's conjuncts are among the asserted ones, none added), or from a caller asserting the same; arguments that are not caller-supplied references (a call result, a local copy) need nothing. Otherwise `row.insert(j, row.get(i))` / `e.set_coefficient(Y, e.coefficient(X))` stores a coefficient that was moved away under the reference, in the sparse representation only")
    fx = ctx.extract([F.lib_unit("CO_Tree.cc", view="debug"),
                      F.driver_unit("all_headers.cc", view="debug", file_re=r"CO_Tree_inlines\.hh")])
    fs = [f for f in fx.functions if f.clsn == "CO_Tree" and f.cfg and not f.flag("pattern")]
    # 1. the asserted alias preconditions: (function name, arity) -> (param index, param name, conjuncts)
    req = {}
    for f in fs:
        refparams = [(i, p["n"]) for i, p in enumerate(f.params) if "&" in p.get("t", "") or "const_reference" in p.get("t", "")]
        for a in f.walk():
            if a["k"] == "cond" and len(a.get("c", ())) == 3 and any(f.call_name(c) == "ppl_assertion_failed" for c in f.calls(f.deref(a["c"][2]))):
                cn = f.deref(a["c"][0])
                neg = False
                while cn is not None and (cn["k"] in ("cast", "paren") or (cn["k"] == "unop" and cn.get("op") == "!")):
                    if cn["k"] == "unop":
                        neg = not neg
                    cn = f.deref(cn["c"][0])
                for i, pn in refparams:
                    if cn is not None and neg and re.search(r"&\s*%s\b" % re.escape(pn), f.text(cn)):
                        req[(f.name, len(f.params))] = (i, pn, _conjuncts(f, cn), f, a)
    ctx.require(rid, len(req) >= 1, "no asserted address-range precondition found in CO_Tree (assertion-enabled view)")
    n = 0
    for f in fs:
        for c in f.calls():
            key = (f.call_name(c), len(f.call_args(c)))
            if key not in req or c["k"] not in ("mcall", "call"):
                continue
            if c["k"] == "mcall" and f.call_obj(c) is not None and f.root(f.call_obj(c)) != ("this",):
                continue
            pi, pn, want, g, _ = req[key]
            arg = f.deref(f.call_args(c)[pi])
            while arg is not None and arg["k"] in ("cast", "paren") and arg.get("c"):
                arg = f.deref(arg["c"][0])
            n += 1
            inst = "CO_Tree::%s calls %s with `%s`" % (f.name, g.name, f.text(arg))
            if arg is not None and arg["k"] in ("call", "mcall", "construct", "lit", "int"):
                ctx.ok(rid, inst + " (not a caller-supplied reference)", f.where(c))
                continue
            ctx.require(rid, arg is not None and arg["k"] == "ref", "%s: unknown form of the argument `%s`" % (inst, f.text(arg)))
            if arg.get("dk") == "local":
                v = f.var_decl(arg["n"]) if hasattr(f, "var_decl") else None
                ctx.require(rid, v is not None and "&" not in v.get("t", "&"), "%s: the local `%s` is a reference: unknown form" % (inst, arg["n"]))
                ctx.ok(rid, inst + " (a local copy)", f.where(c))
                continue
            q = arg["n"]
            mine = req.get((f.name, len(f.params)))
            if mine is not None and mine[1] == q and {t.replace(q, pn) for t in mine[2]} == want:
                ctx.ok(rid, inst + " (the caller asserts the same precondition)", f.where(c))
                continue
            # guards: once-defined bool locals whose definition is a conjunction of asserted conjuncts
            good, weak = set(), {}
            for v in f.walk():
                if v["k"] == "var" and v.get("c") and "bool" in v.get("t", ""):
                    cj = {t.replace(q, pn) for t in _conjuncts(f, v["c"][0])}
                    if not any(("&" + pn) in t for t in cj):
                        continue
                    writes = [a for a in f.walk() if a["k"] == "assign" and f.deref(a["c"][0]) is not None and f.deref(a["c"][0]).get("n") == v["n"]]
                    if cj and cj <= want and not writes:
                        good.add(v["n"])
                    else:
                        weak[v["n"]] = sorted(cj - want)

            def edge_sat(tc, taken):
                pol = True
                x = tc
                while x is not None and (x["k"] in ("cast", "paren") or (x["k"] == "unop" and x.get("op") == "!")):
                    if x["k"] == "unop":
                        pol = not pol
                    x = f.deref(x["c"][0])
                if x is not None and x["k"] == "ref" and x.get("n") in good:
                    return taken != pol        # the edge on which the flag is false
                return False
            path = flow.must_precede(f, c, lambda x: False, edge_satisfied=edge_sat, track_env=False)
            if path is None:
                ctx.ok(rid, inst, f.where(c))
            else:
                extra = ""
                if weak:
                    extra = "; the test `%s` does not imply it (it also requires %s)" % (", ".join(sorted(weak)), ", ".join("`%s`" % t for ts in weak.values() for t in ts) or "something else")
                ctx.violation(rid, inst, f.where(c), "`%s` may point into this tree's own storage when %s relocates the coefficients before reading it: no test that is true whenever `%s` holds guards the call (path %s)%s" % (q, g.name, " && ".join(sorted(want)), flow.render_path(f, path), extra))
    ctx.floor(rid, n, 2, "call sites of members asserting a no-alias precondition")


def _changed_in(f, parts):
    """Names (locals / parameters, and member paths as text) that the given loop parts may change."""
    m = set()
    for part in parts:
        if part is None:
            continue
        for y in f.walk(part):
            t = None
            if y["k"] == "assign" and y.get("c"):
                t = f.deref(y["c"][0])
            elif y["k"] in ("unop", "ocall", "binop") and y.get("op") in ("++", "--", "+=", "-=", "=", "*=", "/=", "%=", "<<=", ">>=") and y.get("c"):
                t = f.deref(y["c"][0])
            if t is not None and t["k"] not in ("index", "subscript"):      # writing X[e] changes neither X's address nor e
                if t["k"] == "member":
                    m.add(f.text(t).replace(" ", ""))
                for z in f.walk(t):
                    if z["k"] == "ref" and z.get("n"):
                        m.add(z["n"])
            if y["k"] == "var":
                m.add(y["n"])
            if y["k"] in ("mcall", "call"):
                o = f.call_obj(y) if y["k"] == "mcall" else None
                if o is not None and not y.get("cconst"):
                    if o["k"] == "member":
                        m.add(f.text(o).replace(" ", ""))
                    for z in f.walk(o):
                        if z["k"] == "ref" and z.get("n"):
                            m.add(z["n"])
                for a, mm in zip(f.call_args(y), y.get("pm", "")):
                    if mm in "rp" and a is not None:
                        for z in f.walk(a):
                            if z["k"] == "ref" and z.get("n"):
                                m.add(z["n"])
                            if z["k"] == "member":
                                m.add(f.text(z).replace(" ", ""))
    return m


def r16_7(ctx):
    from rules.c14 import units_alloc
    rid = "R16.7"
    ctx.rule(rid, "loops move the slot they write: in a `for` loop (innermost around the statement) an element write `X[e] = ..`, a compound assignment to `X[e]` or a placement-new at `&X[e]` uses an index e that mentions something the loop changes (the induction variable, an iterator advanced in the body, a member incremented by the loop) — an index built only from loop-invariant values rewrites one slot on every iteration (and, with e == size, a slot past the end) while the elements the loop is meant to fill keep their old values; judged on all row, matrix and linear-expression code (dense and sparse representations must end up with the same coefficients)")
    fx = ctx.extract(units_alloc())
    n = 0
    seen = set()
    for f in fx.functions:
        if (f.relfile, f.line) in seen or not f.relfile.startswith("src/"):
            continue
        seen.add((f.relfile, f.line))
        for lp in f.walk():
            if lp["k"] != "for" or len(lp.get("c", ())) != 4:
                continue
            body, inc, cond, init = f.deref(lp["c"][3]), f.deref(lp["c"][2]), f.deref(lp["c"][1]), f.deref(lp["c"][0])
            if body is None:
                continue
            changed = None
            for a in f.walk(body):
                tgt = None
                if a["k"] == "assign" and a.get("c"):
                    tgt = f.deref(a["c"][0])
                elif a["k"] == "ocall" and a.get("op") in ("=", "+=", "-=", "*=", "/=") and len(a.get("c", ())) >= 2:
                    tgt = f.deref(a["c"][0])
                elif a["k"] == "new" and a.get("placement"):
                    tgt = a
                if tgt is None:
                    continue
                inner = [x for x in f.ancestors(a) if x["k"] in ("for", "while", "do")]
                if not inner or inner[0]["i"] != lp["i"]:
                    continue
                subs = [x for x in f.walk(tgt) if x["k"] in ("index", "subscript") or (x["k"] == "ocall" and x.get("op") == "[]")]
                if tgt is a:
                    # placement new: only the address expression
                    subs = [x for x in subs if not any(y["k"] in ("construct",) and f.within(x, y) for y in f.walk(a))]
                for sx in subs[:1]:
                    cs = [f.deref(c) for c in sx.get("c", ())]
                    if len(cs) < 2 or cs[-1] is None:
                        continue
                    idx, base = cs[-1], cs[-2]
                    names = set(z["n"] for z in f.walk(idx) if z["k"] == "ref" and z.get("n")) | set(f.text(z).replace(" ", "") for z in f.walk(idx) if z["k"] == "member")
                    if not names:
                        continue      # a literal index
                    bnames = set(z["n"] for z in f.walk(base) if z["k"] == "ref" and z.get("n")) if base is not None else set()
                    if changed is None:
                        changed = _changed_in(f, (body, inc, cond))
                    n += 1
                    inst = "%s::%s `%s` in the loop at line %s" % (f.clsn or "", f.name, f.text(sx)[:50], lp.get("l"))
                    if (names & changed) or (bnames & changed):
                        ctx.ok(rid, inst, f.where(a))
                    else:
                        ctx.violation(rid, inst, f.where(a), "the index `%s` mentions nothing that changes in the loop (changed: %s): every iteration writes the same slot" % (f.text(idx), ", ".join(sorted(changed))[:80]))
    ctx.floor(rid, n, 130, "element writes inside for loops")


def r16_8(ctx):
    rid = "R16.8"
    ctx.rule(rid, "truncating copies clamp the source size: the four sibling constructors Dense_Row / Sparse_Row (const Dense_Row|Sparse_Row& src, dimension_type sz, dimension_type capacity) build a row of size sz from a source of any size; every use of the source's own size (`src.size()`) in such a constructor is clamped by sz — an argument of std::min together with sz, or compared with sz — so no coefficient at an index >= sz is copied. A sparse row that stores entries beyond its size prints and compares differently from the dense row built from the same arguments")
    fx = ctx.extract([F.lib_unit("Dense_Row.cc"), F.lib_unit("Sparse_Row.cc"),
                      F.driver_unit("all_headers.cc", file_re=r"(Dense_Row|Sparse_Row)_inlines\.hh")])
    n = 0
    seen = set()
    for f in fx.functions:
        if f.kind != "ctor" or f.clsn not in ("Dense_Row", "Sparse_Row") or len(f.params) != 3 or (f.relfile, f.line) in seen:
            continue
        src, szp = f.params[0], f.params[1]
        if not re.search(r"(Dense_Row|Sparse_Row) &", src["t"]) or "dimension_type" not in szp["t"] and "unsigned long" not in szp["t"]:
            continue
        seen.add((f.relfile, f.line))
        uses = []
        roots = [f.ast] + [i_.get("e") for i_ in (f.j.get("inits") or []) if isinstance(i_.get("e"), dict)]
        for root in roots:
            for c in f.walk(root):
                if c["k"] == "mcall" and f.call_name(c) == "size" and f.call_obj(c) is not None and f.call_obj(c)["k"] == "ref" and f.call_obj(c).get("n") == src["n"]:
                    uses.append(c)
        n += 1
        inst = "%s(const %s, %s, capacity)" % (f.clsn, src["t"].replace("Parma_Polyhedra_Library::", ""), szp["n"])
        bad = []
        for c in uses:
            ok = False
            for a in f.ancestors(c):
                if a["k"] in ("call", "mcall") and f.call_name(a) in ("min", "max") and any(y["k"] == "ref" and y.get("n") == szp["n"] for y in f.walk(a)):
                    ok = True
                    break
                if a["k"] in ("binop", "ocall") and a.get("op") in ("<", ">", "<=", ">=", "==", "!=") and any(y["k"] == "ref" and y.get("n") == szp["n"] for y in f.walk(a)):
                    ok = True
                    break
            if not ok:
                bad.append(c)
        if not bad:
            ctx.ok(rid, inst, f.where())
        else:
            ctx.violation(rid, inst, f.where(bad[0]), "`%s.size()` bounds what is copied without being clamped by `%s`: a source larger than the requested size leaves coefficients stored at indexes >= %s" % (src["n"], szp["n"], szp["n"]))
    ctx.floor(rid, n, 4, "truncating row constructors")


def r16_9(ctx):
    rid = "R16.9"
    ctx.rule(rid, "no stored zeros, representation-generic code: in the members of Linear_Expression_Impl<Row> templated on a second row type Row2, a value read through an iterator over the Row2 operand (which may be dense, so may be zero) is stored into the receiver's own row — `row.insert(.., *j)`, `*i = *j` — only on the non-zero edge of a test of that value (`*j != 0` / `*j == 0`); a sparse receiver that stores a zero visits it as a coefficient, fails OK() and compares different from the dense receiver given the same arguments")
    fx = ctx.extract([F.driver_unit("all_headers.cc", file_re=r"Linear_Expression_Impl_templates\.hh")])
    n = 0
    seen = set()
    for f in fx.functions:
        if not f.flag("pattern") or (f.relfile, f.line) in seen:
            continue
        seen.add((f.relfile, f.line))
        its = set(v["n"] for v in f.walk() if v["k"] == "var" and "Row2" in v.get("t", "") and "iterator" in v.get("t", ""))
        if not its:
            continue
        for c in f.walk():
            val = None
            if c["k"] in ("mcall", "call") and f.call_name(c) == "insert":
                for a in f.call_args(c):
                    if a is not None and "index" not in f.text(a) and any(x["k"] == "ref" and x.get("n") in its for x in f.walk(a)):
                        val = a
            elif c["k"] in ("assign", "ocall") and (c["k"] == "assign" or c.get("op") == "="):
                cs = [f.deref(x) for x in c["c"]][-2:]
                if len(cs) == 2 and cs[1] is not None and cs[0] is not None and "*" in f.text(cs[0]) and any(x["k"] == "ref" and x.get("n") in its for x in f.walk(cs[1])):
                    val = cs[1]
            if val is None:
                continue
            it = next(x["n"] for x in f.walk(val) if x["k"] == "ref" and x.get("n") in its)
            n += 1
            inst = "%s `%s` (line %s)" % (f.name, f.text(c)[:50], c.get("l"))
            guarded = False
            child = c
            for a in f.ancestors(c):
                if a["k"] == "if":
                    ct = f.text(f.deref(a["c"][2])).replace(" ", "").replace("(", "").replace(")", "")
                    then, els = f.deref(a["c"][3]), f.deref(a["c"][4]) if len(a["c"]) > 4 else None
                    if ct in ("*%s!=0" % it, "0!=*%s" % it) and f.within(child, then):
                        guarded = True
                    if ct in ("*%s==0" % it, "0==*%s" % it) and els is not None and f.within(child, els):
                        guarded = True
                child = a
            if guarded:
                ctx.ok(rid, inst, f.where(c))
            else:
                ctx.violation(rid, inst, f.where(c), "`*%s` comes from the other operand's row, which stores zeros when it is dense; it is stored into the receiver's row without a test against zero" % it)
    ctx.floor(rid, n, 3, "stores of other-representation values")


def r16_10(ctx):
    rid = "R16.10"
    ctx.rule(rid, "the two directions of a hinted search compare mirror-wise: CO_Tree::bisect_near looks for a key starting from a hint, backwards when the hinted index is greater than the key and forwards otherwise; each direction clamps at the end of the array, probes exponentially and stops on equality or when it has passed the key. The sequence of comparisons of a stored index with the key in the backward half (`>=` at the clamped first slot, `==`, `<`) is the mirror image of the forward one (`<=`, `==`, `>`): an inclusive test turned exclusive in one half makes the search miss a key stored exactly at the clamped slot (a stored coefficient is reported absent, a hinted insertion duplicates it)")
    fx = ctx.extract([F.lib_unit("CO_Tree.cc")])
    mir = {"<": ">", ">": "<", "<=": ">=", ">=": "<=", "==": "==", "!=": "!="}
    n = 0
    for f in fx.functions:
        if f.clsn != "CO_Tree":
            continue
        for x in f.walk():
            if x["k"] != "if":
                continue
            cond, th, el = f.deref(x["c"][2]), f.deref(x["c"][3]), f.deref(x["c"][4])
            if cond is None or th is None or el is None or cond["k"] not in ("binop", "ocall") or cond.get("op") not in ("<", ">", "<=", ">="):
                continue
            if not any(y["k"] in ("for", "while", "do") for y in f.walk(th)) or not any(y["k"] in ("for", "while", "do") for y in f.walk(el)):
                continue
            key = f.text(f.deref(cond["c"][-1])).replace(" ", "")

            def seq(arm):
                out = []
                for y in f.walk(arm):
                    if y["k"] in ("binop", "ocall") and y.get("op") in mir and len(y.get("c", ())) >= 2:
                        r = f.deref(y["c"][-1])
                        if r is not None and f.text(r).replace(" ", "") == key:
                            out.append((y["op"], y))
                return out
            s1, s2 = seq(th), seq(el)
            if len(s1) < 2 and len(s2) < 2:
                continue
            n += 1
            inst = "%s: the two halves of `if (%s)` (line %s)" % (f.name, f.text(cond)[:40], x.get("l"))
            if [mir[a] for a, _ in s1] == [b for b, _ in s2]:
                ctx.ok(rid, inst, f.where(x))
            else:
                k = 0
                while k < min(len(s1), len(s2)) and mir[s1[k][0]] == s2[k][0]:
                    k += 1
                where = s1[k][1] if k < len(s1) else s2[k][1]
                ctx.violation(rid, inst, f.where(where), "comparisons with `%s`: the first half has %s, the second half %s; they are not mirror images (difference at position %d)" % (
                    key, " ".join(a for a, _ in s1), " ".join(b for b, _ in s2), k + 1))
    ctx.floor(rid, n, 1, "two-direction searches")


def r16_11(ctx):
    rid = "R16.11"
    ctx.rule(rid, "a stored entry of a generic row may be zero: the member templates of Linear_Expression_Impl<Row> iterate over rows of either representation; a dense row stores every coefficient, zeros included. Where the sign of the entry under an iterator decides a comparison (`return 2*s` with s = sgn(*i)), the return is guarded by a test that the sign is not zero — otherwise the first stored entry of the longer operand, possibly a zero, decides, and two equal expressions of different representation compare different")
    fx = ctx.extract([F.driver_unit("linexpr_impl.cc", file_re=r"Linear_Expression_Impl_templates\.hh")])
    n = 0
    seen = set()
    for f in fx.functions:
        if not f.flag("pattern") or (f.relfile, f.line) in seen:
            continue
        seen.add((f.relfile, f.line))
        signs = {}
        for v in f.walk():
            if v["k"] == "var" and v.get("c"):
                init = f.deref(v["c"][-1])
                if init is not None and re.match(r"^sgn\(\*\w+\)$", f.text(init).replace(" ", "")):
                    signs[v["n"]] = f.text(init).replace(" ", "")
        for r in f.walk():
            if r["k"] != "return" or not r.get("c"):
                continue
            e = f.deref(r["c"][0])
            used = [x.get("n") for x in f.walk(e) if x["k"] == "ref" and x.get("n") in signs]
            direct = [x for x in f.walk(e) if x["k"] in ("call", "mcall") and re.match(r"^sgn\(\*\w+\)$", f.text(x).replace(" ", ""))]
            if not used and not direct:
                continue
            n += 1
            inst = "%s: `%s` (line %s)" % (f.name, f.text(r)[:40], r.get("l"))
            guarded = False
            for a in f.ancestors(r):
                if a["k"] == "if":
                    ct = f.text(f.deref(a["c"][2])).replace(" ", "")
                    if any(re.search(r"\b%s(!=|>|<)0" % re.escape(u), ct) for u in used) or (direct and re.search(r"sgn\(\*\w+\)(!=|>|<)0", ct)):
                        guarded = True
            if guarded:
                ctx.ok(rid, inst, f.where(r))
            else:
                ctx.violation(rid, inst, f.where(r), "the sign of the entry under the iterator is returned without a test that it is not zero: for a dense row the entry may be a stored zero, which then decides the comparison")
    ctx.floor(rid, n, 4, "comparisons decided by the sign of a stored entry")


def run(ctx):
    ctx.explanation = ("C16 structural clauses: Dense/Sparse dispatch arms, Representation switches and explicit "
                       "specialisations agree (necessary for representation independence); decides the dispatch clause, "
                       "not the behaviour of CO_Tree / row arithmetic")
    ctx.assumptions = ["the generic (Row2-templated) bodies reached by both arms are representation-agnostic through the row iterator interface",
                       "CO_Tree index arithmetic, rebalancing and iterator validity are not decided"]
    fx = ctx.extract(units())
    r16_1(ctx, fx)
    r16_2(ctx, fx)
    r16_3(ctx, fx)
    r16_4(ctx)
    r16_6(ctx)
    r16_7(ctx)
    r16_8(ctx)
    r16_9(ctx)
    r16_10(ctx)
    r16_11(ctx)
    from rules import dirty
    fxd = ctx.extract([F.lib_unit(n) for n in ("Linear_Expression.cc", "Linear_Expression_Impl.cc", "Sparse_Row.cc", "Dense_Row.cc", "Scalar_Products.cc", "CO_Tree.cc")]
                      + [F.driver_unit("domains.cc", file_re=r"(Linear_Expression_Impl_templates|Linear_Expression_inlines|Linear_System_templates|Matrix_templates|Sparse_Row_templates)\.hh")])
    dirty.run(ctx, "R16.5", fxd, lambda f: True, 10, "judged on the linear-expression, row and scalar-product sources (both Linear_Expression_Impl instantiations)")
