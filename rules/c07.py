"""C07 — PIP solver: the incremental clause.

R7.1 DOWNGRADE  a write to input_cs / parameters / external_space_dim leaves
     status within {UNSATISFIABLE, PARTIALLY_SATISFIABLE} on every normal path
R7.2 OBSERVER-PURITY  const members never write those inputs (const_cast alias)
R7.3 SOLUTION-GUARD  solution()/optimizing_solution() return the cached tree only
     after the solve() they call
Lexicographic minimality, cuts, compatibility checks: numeric, not decided.
"""
from pplv import facts as F
from pplv import effects as E
from pplv import flow
from rules import solver_common as S

ALL = ("UNSATISFIABLE", "OPTIMIZED", "PARTIALLY_SATISFIABLE")
FEAS = ("feasibility", ("UNSATISFIABLE", "PARTIALLY_SATISFIABLE"))
KINDS = {"input_cs": FEAS, "parameters": FEAS, "external_space_dim": FEAS}
REPLACEMENTS = {
    "operator=": "copy-and-swap: whole state replaced, status included",
    "m_swap": "swaps every member, status included",
    "clear": "resets every input and assigns status = PARTIALLY_SATISFIABLE itself",
    "ascii_load": "loads every member, status included, from the dump",
}


def units():
    return [F.lib_unit("PIP_Problem.cc"),
            F.driver_unit("all_headers.cc", file_re=r"PIP_Problem_(inlines|templates)\.hh")]


def r7_2(ctx, fx):
    rid = "R7.2"
    ctx.rule(rid, "no const member of PIP_Problem may write input_cs / parameters / external_space_dim / big_parameter_dimension / control_parameters, directly, through a const_cast alias of *this or through a same-object callee")
    inputs = set(KINDS) | {"big_parameter_dimension", "control_parameters"}
    summ = E.Summaries(fx, "PIP_Problem")
    n = alias = 0
    for f in fx.functions:
        if f.clsn != "PIP_Problem" or not f.flag("const") or f.kind != "method":
            continue
        n += 1
        if any(x["k"] == "cast" and x.get("ck") == "const_cast" for x in f.walk()):
            alias += 1
        mw = summ.may_write(f) & inputs
        if mw:
            ctx.violation(rid, f.sig(), f.where(), "const member may write problem input(s): " + ", ".join(sorted(mw)))
        else:
            ctx.ok(rid, f.sig(), f.where())
    ctx.floor(rid, n, 15, "const members of PIP_Problem")
    ctx.floor(rid, alias, 1, "const members aliasing *this through const_cast (solve)")


def r7_3(ctx, fx):
    rid = "R7.3"
    ctx.rule(rid, "every public member (other than solve itself) that returns current_solution reaches the return only after solve()/is_satisfiable() or through the edge on which status != PARTIALLY_SATISFIABLE (cached verdict current)")
    n = 0
    for f in fx.functions:
        if f.clsn != "PIP_Problem" or f.j.get("access") != "public" or f.name in ("OK", "solve"):
            continue
        for r in f.walk():
            if r["k"] != "return":
                continue
            if not any(x["k"] == "member" and x.get("n") == "current_solution" and f.root(x)[:2] == ("this", "current_solution")
                       for x in f.walk(r)):
                continue
            n += 1
            inst = "%s returns current_solution" % f.sig()

            def solved(x, f=f):
                return x["k"] == "mcall" and f.call_name(x) in ("solve", "is_satisfiable") and \
                    f.root(f.call_obj(x)) == ("this",)

            def already_solved(cond, taken, f=f):
                # the false edge of `status == PARTIALLY_SATISFIABLE`: the cached verdict is current
                t = f.text(f.deref(cond))
                return (t == "status == PARTIALLY_SATISFIABLE" and not taken) or \
                       (t == "status != PARTIALLY_SATISFIABLE" and taken)
            path = flow.must_precede(f, r, solved, edge_satisfied=already_solved)
            if path is None:
                ctx.ok(rid, inst, f.where(r))
            else:
                ctx.violation(rid, inst, f.where(r), "cached solution tree returned on a path without solving first: " + flow.render_path(f, path))
    ctx.floor(rid, n, 2, "public members returning current_solution")


def r7_6(ctx, fx):
    from pplv import flow
    from pplv import effects as E
    rid = "R7.6"
    ctx.rule(rid, "cached parametric solution: PIP_Solution_Node keeps the solution it printed or handed out (`solution`, claimed by `solution_valid`). (a) solve() is how PIP_Problem pushes every change of its inputs — constraints, and also the number of variables and parameters, which the cached expressions name by index — into a node, so every path through solve() withdraws the claim; (b) update_tableau(), which edits the members the cache is computed from without touching the claim, is called on the tree by PIP_Problem only where every normal path goes on to solve() the tree")
    nodes = [f for f in fx.functions if f.clsn == "PIP_Solution_Node" and f.cfg and not f.flag("pattern")]
    us = [f for f in nodes if f.name == "update_solution"]
    ctx.require(rid, len(us) >= 1, "PIP_Solution_Node::update_solution not found")
    deps = set()
    for u in us:
        for x in u.walk():
            if x["k"] == "member":
                r = u.root(x)
                if r[0] == "this" and len(r) > 1 and r[1] not in ("solution", "solution_valid"):
                    deps.add(r[1])
    ctx.require(rid, len(deps) >= 3, "members read by update_solution(): %s" % sorted(deps))
    n = 0
    seen = set()

    def resets(f):
        def r(x):
            if x["k"] != "assign":
                return False
            l, rr = f.deref(x["c"][0]), f.deref(x["c"][1])
            return l is not None and f.root(l)[-1:] == ("solution_valid",) and rr is not None and f.text(rr).strip() in ("false", "0")
        return r
    for f in nodes:
        if (f.name, f.line) in seen or f.kind in ("ctor", "dtor") or f.flag("const") or f.name in ("update_solution", "ascii_load", "m_swap"):
            continue
        seen.add((f.name, f.line))
        rs = resets(f)
        if f.name == "solve":
            n += 1
            inst = "PIP_Solution_Node::solve withdraws the cache claim on every path"
            p = flow.Explorer(f, track_env=False).find_path("ENTRY", rs)
            if p is None:
                ctx.ok(rid, inst, f.where())
            else:
                ctx.violation(rid, inst, f.where(), "a path through solve() returns with solution_valid untouched (%s): after parameters or variables were added the cached expressions name dimensions by their old indexes" % flow.render_path(f, p))
            continue
        # other members (update_tableau, generate_cut, ...) change the members the cache depends on without touching the
        # claim: they run only inside, or right before, solve() — clause (b) below
    for f in fx.functions:
        if f.clsn != "PIP_Problem" or not f.cfg or f.flag("pattern"):
            continue
        for c in f.calls():
            if c["k"] == "mcall" and f.call_name(c) == "update_tableau":
                n += 1
                inst = "PIP_Problem::%s calls update_tableau() (line %s)" % (f.name, c.get("l"))
                p = flow.must_follow(f, c, lambda x: x["k"] == "mcall" and f.call_name(x) == "solve" and "current_solution" in f.text(x), track_env=False)
                if p is None:
                    ctx.ok(rid, inst, f.where(c))
                else:
                    ctx.violation(rid, inst, f.where(c), "the tree's tableau is updated and a path returns without re-solving it (%s): a cached solution of a node stays claimed valid" % flow.render_path(f, p))
    ctx.floor(rid, n, 2, "cache obligations in PIP_Solution_Node")


def r7_7(ctx):
    from rules.c14 import units_alloc
    from rules.c16 import _changed_in
    rid = "R7.7"
    ctx.rule(rid, "loops make progress (lint over all library code; the pivot-row selection of the parametric simplex holds the instance it was written for): a `while` / `for` loop whose condition reads only locals, parameters and data members, without calls or increments of its own, has a body (or increment) that changes at least one of the things the condition reads; otherwise the condition keeps its value and the loop can only be left through a jump, so an iteration that takes none repeats forever")
    fx = ctx.extract(units_alloc())
    n = 0
    seen = set()
    for f in fx.functions:
        if (f.relfile, f.line) in seen or not f.relfile.startswith("src/"):
            continue
        seen.add((f.relfile, f.line))
        for lp in f.walk():
            if lp["k"] == "for" and len(lp.get("c", ())) == 4:
                init, cond, inc, body = [f.deref(c) for c in lp["c"]]
            elif lp["k"] == "while":
                cs = [f.deref(c) for c in lp.get("c", ())]
                cond, body, inc = (cs[-2] if len(cs) >= 2 else None), (cs[-1] if cs else None), None
            else:
                continue
            if cond is None or body is None:
                continue
            names = set(z["n"] for z in f.walk(cond) if z["k"] == "ref" and z.get("n") and z.get("dk") in ("local", "param")) | \
                set(f.text(z).replace(" ", "") for z in f.walk(cond) if z["k"] == "member")
            if not names:
                continue
            if any((z["k"] in ("unop", "ocall") and z.get("op") in ("++", "--")) or (z["k"] == "mcall" and not z.get("cconst")) or z["k"] == "call" for z in f.walk(cond)):
                continue      # the condition itself moves something (`i-- > 0`, `it.next()`), or calls out
            n += 1
            inst = "%s::%s loop at line %s on `%s`" % (f.clsn or "", f.name, lp.get("l"), f.text(cond)[:50])
            ch = _changed_in(f, (body, inc, cond))
            if names & ch:
                ctx.ok(rid, inst, f.where(lp))
            else:
                ctx.violation(rid, inst, f.where(lp), "nothing the condition reads (%s) is changed by the loop (it changes: %s): an iteration that does not jump out repeats forever" % (", ".join(sorted(names)), ", ".join(sorted(ch)) or "nothing"))
    ctx.floor(rid, n, 1000, "loops with a plain condition")


def run(ctx):
    ctx.explanation = ("C07 incremental clause: after any write to a problem input (constraints, parameters, space dimension) the "
                       "cached status is downgraded on every path; observers never touch inputs; the cached tree is returned only "
                       "after solve(). Decides the invalidation clause, not the parametric simplex / cut generation")
    ctx.assumptions = ["lexicographic minimality, cut generation and compatibility checks (numeric) are not decided",
                       "set_big_parameter_dimension needs no downgrade: it only accepts parameters newer than internal_space_dim, i.e. added since the last solve (status already PARTIALLY_SATISFIABLE or UNSATISFIABLE)",
                       "set_control_parameter needs no downgrade: every strategy yields a correct tree"]
    fx = ctx.extract(units())
    ctx.rule("R7.1", "after a write to input_cs / parameters / external_space_dim, status in {UNSATISFIABLE, PARTIALLY_SATISFIABLE} on every normal path")
    S.downgrade(ctx, "R7.1", fx, "PIP_Problem", KINDS, ALL, REPLACEMENTS, floor=5)
    r7_2(ctx, fx)
    r7_3(ctx, fx)
    ctx.rule("R7.4", "every switch over status handles all three enumerators")
    S.status_switches(ctx, "R7.4", fx, "PIP_Problem", ALL, floor=1)
    from rules import dirty
    fxd = ctx.extract([F.lib_unit("PIP_Tree.cc"), F.lib_unit("PIP_Problem.cc")])
    dirty.run(ctx, "R7.5", fxd, lambda f: True, 30, "judged on PIP_Tree.cc and PIP_Problem.cc")
    r7_6(ctx, fxd)
    r7_7(ctx)
