"""C02 — polyhedron operations compute the documented set: degenerate receivers.

R2.1 DEGENERATE-RECEIVER  a member that asserts `!marked_empty()` on entry (read from the
     assertion-enabled view) is never called on *this on a path where the receiver may have
     become empty since it was last known non-empty
R2.2 DIMENSION-ALIGNMENT  every dimension-changing member edits or withdraws both descriptions
R2.3 COLLAPSE-WITNESS     set_zero_dim_univ() on a receiver of positive dimension only where the
     state entails non-emptiness (shared engine: rules/precond.py)
The set-theoretic content of the operators (signs, invertibility split, epsilon encoding) is numeric: not decided.
"""
from pplv import facts as F
from pplv import flow

ENTRY_NONEMPTY = {}

# call sites where non-emptiness follows from an argument the analysis cannot see
R21_EXC = {
    ("BHRZ03_widening_assign", "select_H79_constraints"): "y was tested non-empty (`!y.minimize()` returns) and the widening's precondition y <= x makes x non-empty as well, so `x.minimize()` cannot find x empty",
}

FILES = ["Polyhedron_nonpublic.cc", "Polyhedron_public.cc", "Polyhedron_chdims.cc", "Polyhedron_widenings.cc"]


def nonempty_required(ctx):
    """Polyhedron members whose body (debug view) asserts !marked_empty() about *this."""
    fx = ctx.extract([F.lib_unit(n, view="debug") for n in FILES])
    req = {}
    global ENTRY_NONEMPTY
    ENTRY_NONEMPTY = {}
    for f in fx.functions:
        if f.clsn != "Polyhedron":
            continue
        for n in f.walk():
            if n["k"] in ("call", "mcall") and f.call_name(n) == "ppl_assertion_failed":
                for a in f.ancestors(n):
                    if a["k"] in ("if", "cond"):
                        ct = f.text(f.deref(a["c"][2] if a["k"] == "if" else a["c"][0]))
                        c0 = ct.replace(" ", "").replace("x.", "")
                        if "!is_empty()" in c0.split("&&"):
                            ENTRY_NONEMPTY[f.name] = "SN"
                        elif "!marked_empty()" in c0.split("&&"):
                            ENTRY_NONEMPTY.setdefault(f.name, "MN")
                        if "!marked_empty()" in ct.replace(" ", "") and "y.marked_empty" not in ct.split("&&")[0]:
                            # the first conjunct speaks about *this
                            first = [c.strip() for c in ct.split("&&")]
                            if any(c.replace(" ", "") == "!marked_empty()" for c in first):
                                req[f.name] = ct[:70]
                        break
    return req


class MayEmpty:
    """Same-object summaries.  marks_empty(g): g may mark the receiver empty in a space of
    positive dimension (a set_empty() that is not under a `space_dim == 0` guard, directly or
    through a same-object callee) — in practice the members that run the constraint-to-generator
    conversion and so DISCOVER emptiness.  adds_constraints(g): g may insert rows into con_sys."""

    def __init__(self, fx):
        self.by_name = {}
        for f in fx.functions:
            if f.clsn in ("Polyhedron", "C_Polyhedron", "NNC_Polyhedron"):
                self.by_name.setdefault(f.name, []).append(f)
        self.memo = {}

    def _zero_dim_guarded(self, f, n):
        for a in f.ancestors(n):
            if a["k"] == "if":
                ct = f.text(f.deref(a["c"][2])).replace(" ", "")
                then = f.deref(a["c"][3])
                if ("space_dim==0" in ct or "space_dimension()==0" in ct) and then is not None and f.within(n, then):
                    return True
        return False

    def _summ(self, kind, name, depth, stack):
        key = (kind, name, depth)
        if key in self.memo:
            return self.memo[key]
        self.memo[key] = False
        res = False
        for f in self.by_name.get(name, []):
            for c in f.calls():
                if c["k"] != "mcall" or f.call_obj(c) is None:
                    continue
                r = f.root(f.call_obj(c))
                cn = f.call_name(c)
                if kind == "adds" and r == ("this", "con_sys") and cn in ("insert", "insert_pending", "add_low_level_constraints"):
                    res = True
                elif r == ("this",):
                    if kind == "marks" and cn == "set_empty":
                        if not self._zero_dim_guarded(f, c):
                            res = True
                    elif depth > 0 and cn not in stack and cn != name:
                        if self._summ(kind, cn, depth - 1, stack + (name,)):
                            res = True
                if res:
                    break
            if res:
                break
        self.memo[key] = res
        return res

    def marks_empty(self, name):
        return self._summ("marks", name, 3, ())

    def adds_constraints(self, name):
        return self._summ("adds", name, 3, ())


def r2_1(ctx):
    rid = "R2.1"
    ctx.rule(rid, "degenerate receiver: on no path is a member that asserts `!marked_empty()` (refine_no_check, update_constraints, update_generators, process_pending_*, ...) applied to *this after a same-object call that may have set it empty (may-summary contains set_empty) without an intervening emptiness test (marked_empty(), is_empty(), minimize(), process_pending_*())")
    req = nonempty_required(ctx)
    ctx.require(rid, "refine_no_check" in req and len(req) >= 5, "members asserting !marked_empty() not found in the debug view: %s" % sorted(req))
    fx = ctx.extract([F.lib_unit(n) for n in FILES] + [F.driver_unit("domains.cc", file_re=r"Polyhedron_(inlines|templates|chdims_templates)\.hh")])
    me = MayEmpty(fx)
    n = 0
    seen = set()
    for f in fx.functions:
        if f.clsn != "Polyhedron" or f.flag("pattern") or not f.cfg or (f.relfile, f.line) in seen:
            continue
        seen.add((f.relfile, f.line))
        sites = [c for c in f.calls() if c["k"] == "mcall" and f.call_name(c) in req
                 and f.call_obj(c) is not None and f.root(f.call_obj(c)) == ("this",)]
        if not sites:
            continue
        for c in sites:
            n += 1
            inst = "Polyhedron::%s calls %s" % (F.strip_ns(f.sig()).split("::", 1)[-1].split("(")[0], f.call_name(c))
            found = {}

            def elem_effect(x, env, c=c):
                if x["k"] == "mcall" and f.call_obj(x) is not None and f.root(f.call_obj(x)) == ("this",):
                    nm = f.call_name(x)
                    if x is c:
                        if env.get("st") == "ME":
                            found["by"] = env.get("by")
                            env = dict(env)
                            env["HIT"] = True
                        return env
                    st = env.get("st", "U")
                    if me.marks_empty(nm) and st != "SN":
                        env = dict(env)
                        env["st"] = "ME"
                        env["by"] = nm
                    elif me.adds_constraints(nm) and st == "SN":
                        env = dict(env)
                        env["st"] = "MN"     # semantically it may now be empty (not yet marked)
                return env

            def edge_effect(cond, taken, env):
                cn = f.deref(cond)
                pol = True
                while cn is not None and cn["k"] == "unop" and cn.get("op") == "!":
                    pol = not pol
                    cn = f.deref(cn["c"][0])
                if cn is not None and cn["k"] == "mcall" and f.call_obj(cn) is not None and f.root(f.call_obj(cn)) == ("this",):
                    nm = f.call_name(cn)
                    truth = taken if pol else not taken
                    if nm == "marked_empty":
                        if truth:
                            return None      # the empty case is handled on this edge
                        if env.get("st") != "SN":
                            env = dict(env)
                            env["st"] = "MN"
                    elif nm == "is_empty":
                        if truth:
                            return None
                        env = dict(env)
                        env["st"] = "SN"
                    elif nm in ("has_pending_constraints", "has_pending_generators", "has_something_pending",
                                "constraints_are_up_to_date", "generators_are_up_to_date",
                                "constraints_are_minimized", "generators_are_minimized") and truth:
                        # the status of a marked-empty polyhedron claims none of these
                        if env.get("st") in (None, "U", "ME") and str(env.get("by", "")).startswith("<entry"):
                            env = dict(env)
                            env["st"] = "MN"
                    elif nm in ("minimize", "process_pending_constraints", "process_pending_generators", "process_pending",
                                "strongly_minimize_constraints", "strongly_minimize_generators", "update_generators",
                                "remove_pending_to_obtain_generators", "remove_pending_to_obtain_constraints"):
                        # these return false exactly when the polyhedron turned out to be empty
                        if not truth:
                            return None
                        env = dict(env)
                        env["st"] = "SN"
                return env
            ex2 = flow.Explorer(f, elem_effect=elem_effect, edge_effect=edge_effect)
            start_env = {"st": ENTRY_NONEMPTY[f.name]} if f.name in ENTRY_NONEMPTY else {}
            if not start_env and f.j.get("access") == "public":
                # a public member can be applied to an object that is marked empty
                start_env = {"st": "ME", "by": "<entry: the receiver of a public member may be marked empty>"}
            path = ex2.find_path("ENTRY", lambda x: False, "EXIT", exit_ok=lambda env: not env.get("HIT"), start_env=start_env)
            if not found:
                ctx.ok(rid, inst, f.where(c))
            elif (f.name, f.call_name(c)) in R21_EXC:
                ctx.excepted(rid, inst, f.where(c), R21_EXC[(f.name, f.call_name(c))])
            else:
                ctx.violation(rid, inst, f.where(c), "%s() asserts a non-empty receiver but is reached after %s(), which may have found the receiver empty and marked it so, with no emptiness test in between (assertion failure, ppl_unreachable abort in a release build)" % (
                    f.call_name(c), found["by"]), {"path": path})
    ctx.floor(rid, n, 40, "call sites of members that assert a non-empty receiver")


def r2_2(ctx):
    from pplv import effects as E
    rid = "R2.2"
    ctx.rule(rid, "dimension alignment: on every path through a Polyhedron member that changes space_dim, each of the two descriptions is either edited, known not to be up to date (false edge of *_are_up_to_date()), withdrawn (clear_*_up_to_date) or replaced wholesale (set_empty, set_zero_dim_univ, swap with a rebuilt polyhedron)")
    fx = ctx.extract([F.lib_unit(n) for n in FILES] + [F.driver_unit("domains.cc", file_re=r"Polyhedron_(inlines|templates|chdims_templates)\.hh")])
    summ = E.Summaries(fx, "Polyhedron")
    n = 0
    seen = set()
    for f in fx.functions:
        if f.clsn != "Polyhedron" or f.flag("pattern") or not f.cfg or f.kind != "method" or (f.relfile, f.line) in seen:
            continue
        seen.add((f.relfile, f.line))
        if f.name in ("operator=", "m_swap", "ascii_load"):
            continue
        w = {"space_dim": set(), "con_sys": set(), "gen_sys": set()}
        for wn, r, how in E.writes(f):
            if r[0] == "this" and len(r) > 1 and r[1] in w:
                w[r[1]].add(wn["i"])
        if not w["space_dim"]:
            continue
        n += 1
        inst = "Polyhedron::" + F.strip_ns(f.sig()).split("::", 1)[-1].split("(")[0]

        def elem_effect(x, env):
            i = x["i"]
            if i in w["space_dim"]:
                env = dict(env); env["sd"] = True
            if i in w["con_sys"]:
                env = dict(env); env["c"] = True
            if i in w["gen_sys"]:
                env = dict(env); env["g"] = True
            if x["k"] == "mcall" and f.call_obj(x) is not None and f.root(f.call_obj(x)) == ("this",):
                nm = f.call_name(x)
                if nm in ("set_empty", "set_zero_dim_univ", "m_swap"):
                    env = dict(env); env["c"] = env["g"] = True
                elif nm == "clear_constraints_up_to_date":
                    env = dict(env); env["c"] = True
                elif nm == "clear_generators_up_to_date":
                    env = dict(env); env["g"] = True
                else:
                    for g_ in summ.by_name.get(nm, []):
                        if g_ is not f and "space_dim" in summ.may_write(g_):
                            env = dict(env); env["sd"] = env["c"] = env["g"] = True   # a checked dimension changer
            if x["k"] in ("call", "ocall") and f.call_name(x) in ("swap", "operator=") and x.get("c") and f.root(x["c"][0]) == ("this",):
                env = dict(env); env["c"] = env["g"] = True
            return env

        def edge_effect(cond, taken, env):
            cn = f.deref(cond)
            pol = True
            while cn is not None and cn["k"] == "unop" and cn.get("op") == "!":
                pol = not pol
                cn = f.deref(cn["c"][0])
            if cn is not None and cn["k"] == "mcall" and f.call_obj(cn) is not None and f.root(f.call_obj(cn)) == ("this",):
                truth = taken if pol else not taken
                nm = f.call_name(cn)
                if nm == "constraints_are_up_to_date" and not truth:
                    env = dict(env); env["c"] = True
                elif nm == "generators_are_up_to_date" and not truth:
                    env = dict(env); env["g"] = True
                elif nm == "marked_empty" and truth:
                    env = dict(env); env["c"] = env["g"] = True
                elif nm in ("update_generators", "update_constraints", "remove_pending_to_obtain_generators",
                            "remove_pending_to_obtain_constraints", "minimize", "process_pending_constraints",
                            "process_pending_generators") and not truth:
                    # false result: the polyhedron was found (and marked) empty; no description is claimed
                    env = dict(env); env["c"] = env["g"] = True
            elif cn is not None and cn["k"] == "binop" and cn.get("op") == "==":
                t = f.text(cn).replace(" ", "")
                truth = taken if pol else not taken
                if t in ("space_dim==0", "0==space_dim") and truth:
                    # zero-dimensional universe: the status claims neither description
                    env = dict(env); env["c"] = env["g"] = True
            return env
        ex = flow.Explorer(f, elem_effect=elem_effect, edge_effect=edge_effect)
        path = ex.find_path("ENTRY", lambda x: False, "EXIT",
                            exit_ok=lambda env: (not env.get("sd")) or (env.get("c") and env.get("g")))
        if path is None:
            ctx.ok(rid, inst, f.where())
        else:
            ctx.violation(rid, inst, f.where(), "space_dim changes on a path that neither edits nor withdraws one of the two descriptions: " + flow.render_path(f, path))
    ctx.floor(rid, n, 7, "dimension-changing members of Polyhedron")


PERMUTERS = ("swap_space_dimensions", "permute_space_dimensions")


def r2_6(ctx):
    rid = "R2.6"
    ctx.rule(rid, "coordinate changes reach both descriptions: where a Polyhedron member renames coordinates of one description in place (con_sys / gen_sys .swap_space_dimensions(), .permute_space_dimensions()), every path to the exit also renames them in the other description, or has that description known not up to date (false edge of *_are_up_to_date(), marked empty, zero-dimensional), withdrawn (clear_*_up_to_date) or replaced wholesale; otherwise the two descriptions, both still claimed, denote different sets and later refinements are folded into the stale one")
    fx = ctx.extract([F.lib_unit(n) for n in FILES] + [F.driver_unit("domains.cc", file_re=r"Polyhedron_(inlines|templates|chdims_templates)\.hh")])
    n = 0
    seen = set()
    for f in fx.functions:
        if f.clsn != "Polyhedron" or f.flag("pattern") or not f.cfg or f.kind != "method" or (f.relfile, f.line) in seen:
            continue
        seen.add((f.relfile, f.line))
        ev = {}
        for c in f.calls():
            if c["k"] == "mcall" and f.call_name(c) in PERMUTERS and f.call_obj(c) is not None:
                r = f.root(f.call_obj(c))
                if r[0] == "this" and len(r) > 1 and r[1] in ("con_sys", "gen_sys"):
                    ev[c["i"]] = r[1]
        if not ev:
            continue

        def elem_effect(x, env):
            if x["i"] in ev:
                env = dict(env)
                env["p" + ev[x["i"]][0]] = True
            if x["k"] == "mcall" and f.call_obj(x) is not None and f.root(f.call_obj(x)) == ("this",):
                nm = f.call_name(x)
                if nm in ("set_empty", "set_zero_dim_univ", "m_swap"):
                    env = dict(env); env["c"] = env["g"] = True
                elif nm == "clear_constraints_up_to_date":
                    env = dict(env); env["c"] = True
                elif nm == "clear_generators_up_to_date":
                    env = dict(env); env["g"] = True
            return env

        def edge_effect(cond, taken, env):
            cn = f.deref(cond)
            pol = True
            while cn is not None and cn["k"] == "unop" and cn.get("op") == "!":
                pol = not pol
                cn = f.deref(cn["c"][0])
            if cn is not None and cn["k"] == "mcall" and (f.call_obj(cn) is None or f.root(f.call_obj(cn)) == ("this",)):
                truth = taken if pol else not taken
                nm = f.call_name(cn)
                if nm == "constraints_are_up_to_date" and not truth:
                    env = dict(env); env["c"] = True
                elif nm == "generators_are_up_to_date" and not truth:
                    env = dict(env); env["g"] = True
                elif nm == "marked_empty" and truth:
                    env = dict(env); env["c"] = env["g"] = True
            return env
        for i_, side in sorted(ev.items()):
            n += 1
            node = f.nodes[i_]
            inst = "Polyhedron::%s %s.%s (line %s)" % (f.name, side, f.call_name(node), node.get("l"))
            other = "g" if side == "con_sys" else "c"
        ex = flow.Explorer(f, elem_effect=elem_effect, edge_effect=edge_effect)
        path = ex.find_path("ENTRY", lambda x: False, "EXIT",
                            exit_ok=lambda env: (not env.get("pc") or env.get("pg") or env.get("g")) and (not env.get("pg") or env.get("pc") or env.get("c")))
        inst = "Polyhedron::%s renames coordinates (%d calls)" % (f.name, len(ev))
        if path is None:
            ctx.ok(rid, inst, f.where())
        else:
            ctx.violation(rid, inst, f.where(), "a path renames the coordinates of one description only while the other stays claimed up to date: " + flow.render_path(f, path))
    ctx.floor(rid, n, 4, "in-place coordinate renamings of a description")


NONEMPTY_TRUE = ("minimize", "update_generators", "update_constraints", "process_pending_constraints", "process_pending_generators",
                 "remove_pending_to_obtain_generators", "remove_pending_to_obtain_constraints", "process_pending")


def r2_7(ctx):
    rid = "R2.7"
    ctx.rule(rid, "relaxing strict inequalities needs a witness of non-emptiness: the closure of the empty set is empty, but turning each `e > 0` of an unsatisfiable system into `e >= 0` can make it satisfiable ({x > 0, x <= 0} becomes {x = 0}). Where a member drops the strictness of constraints — set_epsilon_coefficient(0) on a row of con_sys without moving the inhomogeneous term, or re-adding `e >= 0` for a strict constraint of another polyhedron — every path to that step has established that the polyhedron whose constraints are relaxed is not empty: false edge of is_empty() / marked_empty() after a minimization, or a true result of minimize() / update_*() / process_pending_*()")
    fx = ctx.extract([F.lib_unit(n) for n in FILES + ["C_Polyhedron.cc", "NNC_Polyhedron.cc"]])
    n = 0
    seen = set()
    for f in fx.functions:
        if not f.cfg or (f.relfile, f.line) in seen:
            continue
        seen.add((f.relfile, f.line))
        events = []
        for c in f.calls():
            nm = f.call_name(c)
            if c["k"] == "mcall" and nm == "set_epsilon_coefficient" and f.call_args(c) and (f.text(f.call_args(c)[0]).strip() in ("0", "Coefficient_zero()") or f.text(f.call_args(c)[0]).replace(" ", "").endswith("(0)")):
                o = f.call_obj(c)
                # the row must belong to con_sys (directly or through a local reference initialised from it)
                src = f.text(o)
                if o is not None and o["k"] == "ref" and o.get("dk") == "local":
                    v = [y for y in f.walk() if y["k"] == "var" and y.get("n") == o["n"] and y.get("c")]
                    src = f.text(f.deref(v[0]["c"][0])) if v else src
                if "con_sys" not in src:
                    continue
                blk = next((a for a in f.ancestors(c) if a["k"] in ("block", "compound")), None)
                if blk is not None and any(y["k"] == "mcall" and f.call_name(y) == "set_inhomogeneous_term" for y in f.walk(blk)):
                    continue      # integer tightening (e > 0 becomes e - 1 >= 0): a strengthening
                events.append((c, "this", "the strictness of a row of con_sys is dropped"))
            if c["k"] in ("mcall", "call") and nm in ("add_constraint", "refine_no_check", "insert"):
                # `add_constraint(expr >= 0)` under `c.is_strict_inequality()` for c taken from another polyhedron
                strict_if = [a for a in f.ancestors(c) if a["k"] == "if" and "is_strict_inequality" in f.text(f.deref(a["c"][2])) and f.within(c, f.deref(a["c"][3]))]
                if strict_if and ">=" in f.text(c):
                    ys = [p_["n"] for p_ in f.params if "Polyhedron" in p_["t"]]
                    if ys:
                        events.append((c, ys[0], "`e >= 0` is added for a strict constraint of `%s`" % ys[0]))
        for c, who, what in events:
            n += 1
            inst = "%s::%s: %s (line %s)" % (f.clsn or "", f.name, what, c.get("l"))

            def edge(tc, taken, who=who):
                pol = True
                x = tc
                while x is not None and (x["k"] in ("cast", "paren") or (x["k"] == "unop" and x.get("op") == "!")):
                    if x["k"] == "unop":
                        pol = not pol
                    x = f.deref(x["c"][0])
                if x is None or x["k"] != "mcall":
                    return False
                o = f.call_obj(x)
                on = "this" if (o is None or f.root(o) == ("this",)) else (f.root(o)[1] if f.root(o)[0] == "param" else None)
                if on != who:
                    return False
                truth = taken if pol else not taken
                nm2 = f.call_name(x)
                if nm2 == "is_empty" and not truth:
                    return True
                if nm2 in NONEMPTY_TRUE and truth:
                    return True
                if nm2 in ("constraints_are_minimized", "generators_are_minimized", "generators_are_up_to_date") and truth:
                    return True      # a minimized description, or any generator description, belongs to a polyhedron already found non-empty
                return False
            p = flow.must_precede(f, c, lambda x: False, edge_satisfied=edge, track_env=False)
            if p is None:
                ctx.ok(rid, inst, f.where(c))
            else:
                ctx.violation(rid, inst, f.where(c), "a path reaches the relaxation without having established that %s is not empty (%s): an unsatisfiable system with strict inequalities can become satisfiable, and the closure of the empty set comes out non-empty" % ("the receiver" if who == "this" else "`%s`" % who, flow.render_path(f, p)))
    ctx.floor(rid, n, 2, "strictness-dropping steps")


def r2_3(ctx):
    from rules import precond
    rid = "R2.3"
    ctx.rule(rid, "collapse to the universe needs a witness: a call of set_zero_dim_univ() on a receiver of positive dimension (zero-dimensional branches are pruned) is reached, on every CFG path, only in a state that entails non-emptiness — the false edge of is_empty(), a true result of minimize() / update_generators() / process_pending_*(), or a complete generator description of an object not marked empty; otherwise removing all dimensions of an empty polyhedron that has not been found empty yet yields the universe instead of the empty set")
    n = precond.discharge(ctx, rid, {}, only_callees=("set_zero_dim_univ",))
    ctx.floor(rid, n, 6, "set_zero_dim_univ call sites")


def r2_5(ctx):
    from rules import precond
    rid = "R2.5"
    ctx.rule(rid, "withdrawing a description loses nothing: clear_generators_up_to_date() / clear_constraints_up_to_date() is reached, on every CFG path, only where the other description is known complete and the withdrawn side holds no pending rows (facts from flag tests, integrating calls and the class invariants; a possibly-empty receiver is judged in its non-empty case); otherwise the rows only the withdrawn side knew are dropped and the operation computes a different set; and no clear_*_up_to_date() / clear_*_minimized() is reached while either pending flag may still be claimed (Status::OK: rows are pending only on two minimized, up-to-date descriptions) — a surviving pending flag makes the next process_pending_*() run on a description that was withdrawn")
    n = precond.discharge(ctx, rid, {}, only_callees=precond.DISCARDS)
    ctx.floor(rid, n, 44, "description- and claim-withdrawing call sites")


def c14_units():
    from rules import c14
    return c14.units_alloc()


def _r28_owner(t):
    """the object a divisor / expression text belongs to: `gx.expr.inhomogeneous_term()` -> gx, `g->divisor()` -> g,
    `-point_divisor` -> point, `point_expr` -> point, `new_g.expr` -> new_g; None when the text is not of that kind."""
    import re
    t = t.replace(" ", "")
    w = re.match(r"^(?:\w+::)*\w+\((.*)\)$", t)            # a conversion wrapped around the value: GMP_Integer(-point_divisor)
    if w and not re.search(r"(divisor|inhomogeneous_term|expression)\(\)$", t):
        t = w.group(1)
    t = t.lstrip("-")
    if t.startswith(">"):                                  # `->g->divisor()`: operator-> of an iterator, printed in front
        t = t[1:]
    m = re.match(r"^(\w+)(?:\.|->)(?:expr\.inhomogeneous_term\(\)|divisor\(\)|expr|expression\(\))$", t)
    if m:
        return m.group(1)
    m = re.match(r"^(\w+?)_(?:divisor|div|expr)$", t)
    if m:
        return m.group(1)
    if re.match(r"^\w+$", t):
        return t
    return None


def r2_8(ctx):
    import re
    rid = "R2.8"
    ctx.rule(rid, "a vector is never scaled by its own divisor: to add or subtract two points p = a/d1 and q = b/d2 the coordinates are brought to the common denominator d1*d2 by cross-multiplication, a*d2 and b*d1. In every `x.linear_combine(y, c1, c2, ..)` (x := c1*x + c2*y) and every scaled comparison `x.is_equal_to(y, c1, c2, ..)` (x*c1 == y*c2) whose factor c1 or c2 is the divisor of a named generator or point (`g.expr.inhomogeneous_term()`, `g->divisor()`, `point_divisor`), the factor that multiplies x is not x's own divisor and the factor that multiplies y is not y's own — the owner of x follows copies (`Generator new_g = g`, `Linear_Expression e = point_expr`)")
    fx = ctx.extract(c14_units())
    n = 0
    seen = set()
    for f in fx.functions:
        if (f.relfile, f.line) in seen:
            continue
        seen.add((f.relfile, f.line))
        alias = {}
        for v in f.walk():
            if v["k"] == "var" and v.get("c") and v.get("n"):
                src = _r28_owner(f.text(f.deref(v["c"][-1])))
                if src and src != v["n"]:
                    alias[v["n"]] = src
                    own = _r28_owner(v["n"])
                    if own and own != v["n"] and own != src:
                        alias.setdefault(own, src)

        def closure(o):
            out = set()
            while o is not None and o not in out:
                out.add(o)
                o2 = _r28_owner(o) if _r28_owner(o) != o else None
                if o2:
                    out.add(o2)
                o = alias.get(o) or (alias.get(o2) if o2 else None)
            return out
        for c in f.calls():
            if c["k"] != "mcall" or f.call_name(c).lstrip("~") not in ("linear_combine", "is_equal_to"):
                continue
            args = f.call_args(c)
            obj = f.call_obj(c)
            if len(args) < 3 or obj is None:
                continue
            if f.call_name(c).lstrip("~") == "is_equal_to" and len(args) != 5:
                continue      # only the scaled comparison x*c1 == y*c2 has factors
            xo = _r28_owner(f.text(obj))
            yo = _r28_owner(f.text(f.deref(args[0])))
            facts_ = []
            for which, a in (("c1", args[1]), ("c2", args[2])):
                t = f.text(f.deref(a)).replace(" ", "")
                if re.search(r"inhomogeneous_term\(\)\)?$|divisor\(\)\)?$|_divisor\)?$|_div\)?$", t):
                    facts_.append((which, t, _r28_owner(t)))
            if not facts_ or xo is None or yo is None:
                continue
            n += 1
            inst = "%s: %s (line %s)" % (f.name, f.text(c).replace("\n", " ")[:70], c.get("l"))
            bad = None
            for which, t, o in facts_:
                if o is None:
                    continue
                mine = closure(xo) if which == "c1" else closure(yo)
                if closure(o) & mine:
                    bad = (which, t, "x" if which == "c1" else "y", xo if which == "c1" else yo)
            if bad:
                ctx.violation(rid, inst, f.where(c), "the factor %s = `%s` multiplies %s (`%s`) and is that operand's own divisor: the two scale factors are exchanged, the sum is a/d2 + b/d1" % bad)
            else:
                ctx.ok(rid, inst, f.where(c))
    ctx.floor(rid, n, 4, "cross-multiplications with a divisor among the factors")


def run(ctx):
    ctx.explanation = ("C02 degenerate-receiver clause: typestate (maybe-empty / known non-empty) of the receiver along all CFG paths to the call sites of members "
                       "that assert non-emptiness; decides this clause, not which set the operators compute")
    ctx.assumptions = ["the asserted preconditions are read from the assertion-enabled (debug) view of the same sources",
                       "R2.3 judges non-emptiness only; R2.5 judges the up-to-date / pending facts at the description-withdrawing calls only"]
    r2_1(ctx)
    r2_2(ctx)
    r2_3(ctx)
    r2_5(ctx)
    r2_6(ctx)
    r2_7(ctx)
    r2_8(ctx)
    from rules import dirty
    fxd = ctx.extract([F.lib_unit(n) for n in FILES + ["Generator.cc", "Constraint.cc", "Generator_System.cc", "Constraint_System.cc",
                                                        "Polyhedron_nonpublic.cc", "BHRZ03_Certificate.cc", "H79_Certificate.cc"]]
                      + [F.driver_unit("domains.cc", file_re=r"Polyhedron_(inlines|templates|chdims_templates|conversion_templates|minimize_templates|simplify_templates)\.hh")])
    dirty.run(ctx, "R2.4", fxd, lambda f: True, 20, "judged on the Polyhedron sources, its conversion / minimization templates and the constraint and generator classes")
